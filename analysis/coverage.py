"""A6 — field coverage: which fields of an ADT a function (or cone) reads / writes."""
import re


def _places_in(fn):
    """yield (place, role, bb) for every place mentioned in the function's normal blocks"""
    def ops(o):
        if o and o.get("k") in ("copy", "move"):
            yield o["pl"]
    for b in sorted(fn.normal_blocks()):
        blk = fn.blocks[b]
        for s in blk["s"]:
            if s["k"] == "assign":
                yield s["pl"], "write", b
                rv = s["rv"]
                k = rv["k"]
                if k in ("use", "cast", "repeat"):
                    for p in ops(rv.get("op")):
                        yield p, "read", b
                elif k == "unop":
                    for p in ops(rv.get("a")):
                        yield p, "read", b
                elif k in ("ref", "rawptr", "discr"):
                    yield rv["pl"], "read", b
                elif k == "binop":
                    for o in (rv["a"], rv["b"]):
                        for p in ops(o):
                            yield p, "read", b
                elif k == "agg":
                    for o in rv["ops"]:
                        for p in ops(o):
                            yield p, "read", b
        t = blk["t"]
        if t["k"] == "call":
            for a in t["args"]:
                for p in ops(a):
                    yield p, "read", b
            yield t["dest"], "write", b
        elif t["k"] == "switch":
            for p in ops(t["discr"]):
                yield p, "read", b
        elif t["k"] == "assert":
            for p in ops(t["cond"]):
                yield p, "read", b


def fields_read(fn, adt):
    """names of fields of `adt` read anywhere in fn (through any base)"""
    out = set()
    for pl, role, b in _places_in(fn):
        for i, p in enumerate(pl["p"]):
            if isinstance(p, dict) and p.get("adt") == adt and "n" in p:
                last = i == len(pl["p"]) - 1
                if role == "read" or not last:
                    out.add(p["n"])
    return out


def fields_written(fn, adt):
    out = set()
    for pl, role, b in _places_in(fn):
        if role != "write":
            continue
        ps = pl["p"]
        if ps and isinstance(ps[-1], dict) and ps[-1].get("adt") == adt and "n" in ps[-1]:
            out.add(ps[-1]["n"])
    return out


def aggregates(fn, adt):
    """[(bb, idx, stmt)] of Rvalue::Aggregate sites building `adt`"""
    out = []
    for b, i, s in fn.statements():
        if s["k"] == "assign" and s["rv"]["k"] == "agg" and s["rv"].get("adt") == adt:
            out.append((b, i, s))
    return out
