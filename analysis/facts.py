"""Fact base access: functions, CFG, dominators / post-dominators, def-use, canonical value
expressions (backward provenance, A3), call graph (A1). No rule lives here."""
import json
import os
import re
from collections import defaultdict, deque
from functools import lru_cache


class AnchorMissing(Exception):
    """A function / type / field a rule is anchored in no longer resolves (fail closed)."""


def loc_of(sp):
    """span json -> 'file:line'"""
    if sp is None:
        return "?"
    if isinstance(sp, dict):
        sp = sp.get("at", "?")
    m = re.match(r"^(.*?):(\d+):(\d+)", sp)
    return f"{m.group(1)}:{m.group(2)}" if m else sp


def line_of(sp):
    if isinstance(sp, dict):
        sp = sp.get("at", "")
    m = re.match(r"^(.*?):(\d+):(\d+)", sp or "")
    return int(m.group(2)) if m else 0


def file_of(sp):
    if isinstance(sp, dict):
        sp = sp.get("at", "")
    m = re.match(r"^(.*?):(\d+):(\d+)", sp or "")
    return m.group(1) if m else ""


def macros_of(sp):
    if isinstance(sp, dict):
        return sp.get("exp", [])
    return []


def strip_generics(path):
    """'std::option::Option::<T>::is_none' -> 'std::option::Option::is_none'"""
    out = []
    depth = 0
    i = 0
    while i < len(path):
        c = path[i]
        if path.startswith("::<", i) and depth == 0:
            depth = 1
            i += 3
            continue
        if depth > 0:
            if c == "<":
                depth += 1
            elif c == ">":
                depth -= 1
            i += 1
            continue
        out.append(c)
        i += 1
    return "".join(out)


# callees that are identity for provenance purposes (the value flows through unchanged / as a view)
TRANSPARENT = [
    r"std::ops::Deref>::deref$", r"std::ops::DerefMut>::deref_mut$",
    r"std::convert::AsRef<.*>>::as_ref$", r"std::borrow::Borrow<.*>>::borrow$",
    r"^std::option::Option::as_ref$", r"^std::option::Option::as_deref$",
    r"^std::option::Option::as_mut$",
    r"^std::string::String::as_str$", r"^std::vec::Vec::as_slice$",
    r"^std::string::String::as_bytes$", r"^core::str::as_bytes$", r"^std::str::as_bytes$",
    r"std::convert::Into<.*>>::into$", r"std::convert::From<.*>>::from$",
    r"std::iter::IntoIterator>::into_iter$",
    r"^std::boxed::Box::new$",
    r"^std::ops::Try>::branch$", r"std::ops::Try>::branch$",
    r"^std::option::Option::copied$", r"^std::option::Option::cloned$",
    r"std::clone::Clone>::clone$",
    r"^std::sync::Arc::new$", r"^std::sync::Arc::clone$",
    r"std::borrow::ToOwned>::to_owned$", r"std::string::ToString>::to_string$",
    r"^std::mem::take$",
]
_TRANSPARENT_RE = re.compile("|".join(f"(?:{t})" for t in TRANSPARENT))


def is_transparent(callee):
    return bool(_TRANSPARENT_RE.search(strip_generics(callee)))


class Fn:
    def __init__(self, facts, name, j, body=None):
        self.facts = facts
        self.name = name
        self.j = j
        self.mir = body if body is not None else j["mir"]
        self.blocks = self.mir["blocks"]
        self.argc = self.mir["argc"]
        self.locals = self.mir["locals"]
        self.span = j.get("span")
        self.file = file_of(j.get("body_span") or j.get("span"))
        self.varnames = {}
        self.upvars = []
        for v in self.mir.get("vars", []):
            pl = v["v"]
            if "l" in pl and not pl["p"]:
                self.varnames.setdefault(pl["l"], v["name"])
            elif "l" in pl:
                # captured upvars: (*_1).0 / (*(*_1).0) -> name
                self.upvars.append((pl["l"], pl["p"], v["name"]))
        self._succ = None
        self._dom = None
        self._pdom = None
        self._defs = None
        self._expr_cache = {}
        self._sites = False
        self._norm = False

    # ---------------------------------------------------------------- CFG
    def succ(self, bb, include_unwind=False):
        t = self.blocks[bb]["t"]
        k = t["k"]
        out = []
        if k == "goto":
            out = [t["t"]]
        elif k == "switch":
            out = [x[1] for x in t["targets"]] + [t["otherwise"]]
        elif k in ("drop", "assert"):
            out = [t["t"]]
        elif k == "call":
            if t["t"] is not None:
                out = [t["t"]]
        if include_unwind and t.get("unwind") is not None:
            out.append(t["unwind"])
        return out

    def normal_blocks(self):
        """blocks reachable from entry without unwinding"""
        seen = {0}
        dq = deque([0])
        while dq:
            b = dq.popleft()
            for s in self.succ(b):
                if s not in seen:
                    seen.add(s)
                    dq.append(s)
        return seen

    def preds(self):
        p = defaultdict(list)
        for b in self.normal_blocks():
            for s in self.succ(b):
                p[s].append(b)
        return p

    def dominators(self):
        if self._dom is not None:
            return self._dom
        nodes = sorted(self.normal_blocks())
        preds = self.preds()
        dom = {n: set(nodes) for n in nodes}
        dom[0] = {0}
        changed = True
        while changed:
            changed = False
            for n in nodes:
                if n == 0:
                    continue
                ps = [dom[p] for p in preds[n] if p in dom]
                new = set.intersection(*ps) if ps else set()
                new = new | {n}
                if new != dom[n]:
                    dom[n] = new
                    changed = True
        self._dom = dom
        return dom

    def dominates(self, a, b):
        """block a dominates block b (every normal path entry->b passes a)"""
        return a in self.dominators().get(b, set())

    def exits(self):
        """normal blocks that end the function normally (return)"""
        return [b for b in self.normal_blocks() if self.blocks[b]["t"]["k"] == "return"]

    def postdominators(self):
        """post-dominators w.r.t. normal returns (diverging calls / panics are not exits)"""
        if self._pdom is not None:
            return self._pdom
        nodes = sorted(self.normal_blocks())
        exits = set(self.exits())
        pd = {n: set(nodes) for n in nodes}
        for e in exits:
            pd[e] = {e}
        changed = True
        while changed:
            changed = False
            for n in nodes:
                if n in exits:
                    continue
                ss = [pd[s] for s in self.succ(n) if s in pd]
                new = set.intersection(*ss) if ss else set(nodes)
                new = new | {n}
                if new != pd[n]:
                    pd[n] = new
                    changed = True
        self._pdom = pd
        return pd

    def postdominates(self, a, b):
        """every normal path from b to a return passes a"""
        return a in self.postdominators().get(b, set())

    def reachable_from(self, bb, avoid=()):
        seen = set()
        dq = deque([bb])
        avoid = set(avoid)
        while dq:
            b = dq.popleft()
            if b in seen or b in avoid:
                continue
            seen.add(b)
            for s in self.succ(b):
                dq.append(s)
        return seen

    # ---------------------------------------------------------------- sites
    def calls(self, pattern=None, normal_only=True):
        """[(bb, term)] for call terminators whose resolved callee matches regex `pattern`"""
        out = []
        nb = self.normal_blocks() if normal_only else range(len(self.blocks))
        rx = re.compile(pattern) if pattern else None
        for b in sorted(nb):
            t = self.blocks[b]["t"]
            if t["k"] == "call":
                c = strip_generics(t["callee"])
                if rx is None or rx.search(c) or rx.search(t["callee"]):
                    out.append((b, t))
        return out

    def statements(self, normal_only=True):
        nb = self.normal_blocks() if normal_only else range(len(self.blocks))
        for b in sorted(nb):
            for i, s in enumerate(self.blocks[b]["s"]):
                yield b, i, s

    # ---------------------------------------------------------------- def-use
    def defs(self):
        """local -> list of ('assign', bb, idx, stmt) | ('call', bb, term) full definitions;
        partial (projected) writes are recorded under key (local,'partial')."""
        if self._defs is not None:
            return self._defs
        d = defaultdict(list)
        for b in range(len(self.blocks)):
            blk = self.blocks[b]
            if blk.get("cleanup"):
                continue
            for i, s in enumerate(blk["s"]):
                if s["k"] == "assign":
                    pl = s["pl"]
                    if not pl["p"]:
                        d[pl["l"]].append(("assign", b, i, s))
                    else:
                        d[(pl["l"], "partial")].append(("assign", b, i, s))
            t = blk["t"]
            if t["k"] == "call":
                pl = t["dest"]
                if not pl["p"]:
                    d[pl["l"]].append(("call", b, t))
                else:
                    d[(pl["l"], "partial")].append(("call", b, t))
        self._defs = d
        return d

    def local_name(self, l):
        if l == 0:
            return "ret"
        n = self.varnames.get(l)
        if 1 <= l <= self.argc:
            return f"arg:{n or l}"
        return f"var:{n}" if n else f"_{l}"

    # ---------------------------------------------------------------- expressions (A3)
    def expr_place(self, pl, depth=12, stack=()):
        if self.upvars and pl["p"]:
            best = None
            for (l, proj, name) in self.upvars:
                if l != pl["l"]:
                    continue
                # compare ignoring derefs
                want = [x for x in proj if x != "*"]
                have = [x for x in pl["p"] if x != "*"]
                if len(want) <= len(have) and all(
                        isinstance(a, dict) and isinstance(b, dict) and a.get("f") == b.get("f")
                        for a, b in zip(want, have[:len(want)])):
                    if best is None or len(want) > best[0]:
                        best = (len(want), name, have[len(want):])
            if best:
                return self._apply_proj("up:" + best[1], best[2], lambda l: self.expr_local(l, max(depth - 1, 0), stack))
        # `match (a, b) { .. }`: a component of a tuple that was built on the spot is that component's value
        proj = [x for x in pl["p"] if x != "*"]
        if self._norm and proj and isinstance(proj[0], dict) and "f" in proj[0] and pl["l"] > self.argc and pl["l"] not in stack:
            ds = self.defs().get(pl["l"], [])
            if len(ds) == 1 and ds[0][0] == "assign" and ds[0][3]["rv"]["k"] == "agg" and ds[0][3]["rv"]["agg"] == "tuple" \
                    and not self.varnames.get(pl["l"]) and isinstance(proj[0]["f"], int) and proj[0]["f"] < len(ds[0][3]["rv"]["ops"]):
                inner = self.expr_operand(ds[0][3]["rv"]["ops"][proj[0]["f"]], depth, stack + (pl["l"],))
                return self._apply_proj(inner, proj[1:], lambda l: self.expr_local(l, max(depth - 1, 0), stack))
        base = self.expr_local(pl["l"], depth, stack)
        return self._apply_proj(base, pl["p"], lambda l: self.expr_local(l, max(depth - 1, 0), stack))

    def _apply_proj(self, base, proj, index=None):
        """`index`: renderer for the index local of a `place[i]` projection (None: abstract `[_]`)"""
        e = base
        for p in proj:
            if p == "*":
                continue
            if isinstance(p, dict):
                if "n" in p:
                    e = f"{e}.{p['n']}"
                elif "f" in p:
                    e = f"{e}.{p['f']}"
                elif "downcast" in p:
                    e = f"{e}@{p['downcast']}"
                elif "index" in p:
                    e = f"{e}[{index(p['index']) if index is not None and isinstance(p['index'], int) else '_'}]"
                elif "cidx" in p:
                    e = f"{e}[{p['cidx']}]"
                elif "subslice" in p:
                    e = f"{e}[{p['subslice']}..]"
            else:
                e = f"{e}<{p}>"
        return e

    def expr_local(self, l, depth=12, stack=()):
        key = (l, depth)
        if l in stack:
            return f"loop({self.local_name(l)})"
        if 1 <= l <= self.argc:
            return self.local_name(l)
        ck = (l,)
        if ck in self._expr_cache and depth >= 12:
            return self._expr_cache[ck]
        ds = self.defs().get(l, [])
        if not ds:
            r = self.local_name(l)
        elif depth <= 0:
            r = f"…{self.local_name(l)}"
        else:
            alts = []
            for d in ds:
                if d[0] == "assign":
                    alts.append(self.expr_rvalue(d[3]["rv"], depth - 1, stack + (l,)))
                else:
                    alts.append(self.expr_call(d[2], depth - 1, stack + (l,)))
            alts = sorted(set(alts))
            if len(alts) == 1:
                r = alts[0]
            else:
                r = "φ{" + " | ".join(alts) + "}"
            # partial writes widen the value
        if depth >= 12 and not stack:
            self._expr_cache[ck] = r
        return r

    def expr_operand(self, op, depth=12, stack=()):
        k = op["k"]
        if k in ("copy", "move"):
            return self.expr_place(op["pl"], depth, stack)
        if k == "const":
            if "promoted" in op and "promoted" in self.j and not isinstance(self, _PromotedFn):
                pe = self.promoted_expr(op["promoted"])
                if pe is not None:
                    return pe
            return const_repr(op)
        return "?"

    def promoted_expr(self, k):
        """value of promoted constant #k of this function, as a canonical expression"""
        cache = self.__dict__.setdefault("_promoted_cache", {})
        if k in cache:
            return cache[k]
        try:
            body = self.j["promoted"][k]
            pf = _PromotedFn(self.facts, f"{self.name}::promoted#{k}", self.j, body)
            e = pf.expr_local(0)
        except Exception:
            e = None
        cache[k] = e
        return e

    def expr_call(self, t, depth=12, stack=()):
        callee = strip_generics(t["callee"])
        args = [self.expr_operand(a, depth, stack) for a in t["args"]]
        if args and is_transparent(t["callee"]):
            return args[0]
        if callee == "<indirect>":
            return f"indirect[{self.expr_operand(t['func'], depth, stack)}]({', '.join(args)})"
        if self._sites:
            return f"{callee}@{self._site_of(t)}({', '.join(args)})"
        if self._norm and callee in ("std::option::Option::map_or", "std::option::Option::unwrap_or"):
            e = self._option_default_form(callee, args)
            if e is not None:
                return e
        return f"{callee}({', '.join(args)})"

    def _option_default_form(self, callee, args):
        """`o.map_or(d, |x| E)` and `o.map(|x| E).unwrap_or(d)` with a closure that only computes (no calls) are rendered
        like the `if let Some(x) = o { E } else { d }` they abbreviate: φ{E[x := o@Some.0] | d}"""
        if callee.endswith("map_or") and len(args) == 3:
            o, d, cl = args
        elif callee.endswith("unwrap_or") and len(args) == 2 and args[0].startswith("std::option::Option::map("):
            from .idioms import call_parts
            inner = call_parts(args[0])
            if not inner or len(inner[1]) != 2:
                return None
            (o, cl), d = inner[1], args[1]
        else:
            return None
        m = re.match(r"^closure\[([^\]]+)\]\((.*)\)$", cl)
        c = self.facts.fns.get(m.group(1)) if m else None
        if c is None or c.calls() or c.argc != 2:
            return None
        from .idioms import split_args
        caps = split_args(m.group(2))
        body = c.expr_local(0)
        if "φ{" in body or "loop(" in body:
            return None
        names = [u[2] for u in c.upvars]
        if len(names) != len(caps):
            return None
        pname = c.local_name(2)
        out = re.sub(re.escape(pname) + r"(?![\w])", lambda _m: o + "@Some.0", body)
        for n_, v in zip(names, caps):
            out = re.sub(r"up:" + re.escape(n_) + r"(?![\w])", lambda _m, v=v: v, out)
        return "φ{" + " | ".join(sorted({out, d})) + "}"

    def _site_of(self, t):
        for i, b in enumerate(self.blocks):
            if b["t"] is t:
                return f"bb{i}"
        return "bb?"

    class _SitesCtx:
        def __init__(self, fn):
            self.fn = fn

        def __enter__(self):
            self.prev = self.fn._sites
            self.fn._sites = True
            self.saved = self.fn._expr_cache
            self.fn._expr_cache = {}
            return self.fn

        def __exit__(self, *a):
            self.fn._sites = self.prev
            self.fn._expr_cache = self.saved

    class _NormCtx:
        def __init__(self, fn):
            self.fn = fn

        def __enter__(self):
            self.prev, self.saved = self.fn._norm, self.fn._expr_cache
            self.fn._norm, self.fn._expr_cache = True, {}
            return self.fn

        def __exit__(self, *a):
            self.fn._norm, self.fn._expr_cache = self.prev, self.saved

    def normalised(self):
        """context manager (opt-in per rule): equivalent spellings are rendered alike --
        `o.map_or(d, |x| E)` / `o.map(|x| E).unwrap_or(d)` with a closure that only computes become φ{E[x := o@Some.0] | d}
        (what `if let Some(x) = o { E } else { d }` renders as), and a component of a tuple built on the spot
        (`match (a, b) { .. }`) is that component's value. Not the default: the frozen A7 keys are hashes of the
        plain rendering."""
        return Fn._NormCtx(self)

    def sites(self):
        """context manager: render call expressions with their block (`callee@bbN(..)`) so that two
        values built by the same constructor at different sites are distinguishable"""
        return Fn._SitesCtx(self)

    def expr_operand_sites(self, op):
        with self.sites():
            return self.expr_operand(op)

    def expr_rvalue(self, rv, depth=12, stack=()):
        k = rv["k"]
        if k == "use":
            return self.expr_operand(rv["op"], depth, stack)
        if k in ("ref", "rawptr"):
            return self.expr_place(rv["pl"], depth, stack)
        if k == "cast":
            e = self.expr_operand(rv["op"], depth, stack)
            ck = rv["ck"]
            if "IntToInt" in ck or "Expose" in ck or "PtrToPtr" in ck or "Transmute" in ck \
                    or "FloatToInt" in ck or "IntToFloat" in ck:
                return f"({e} as {rv['ty']})"
            return e
        if k == "binop":
            a = self.expr_operand(rv["a"], depth, stack)
            b = self.expr_operand(rv["b"], depth, stack)
            return f"({a} {rv['op']} {b})"
        if k == "unop":
            a = self.expr_operand(rv["a"], depth, stack)
            return f"{rv['op']}({a})"
        if k == "discr":
            return f"discr({self.expr_place(rv['pl'], depth, stack)})"
        if k == "agg":
            ops = [self.expr_operand(o, depth, stack) for o in rv["ops"]]
            a = rv["agg"]
            if a == "adt":
                fs = rv.get("fields", [])
                body = ", ".join(f"{n}: {o}" for n, o in zip(fs, ops))
                return f"{rv['adt']}::{rv['variant']}{{{body}}}"
            if a == "tuple":
                return "(" + ", ".join(ops) + ")"
            if a == "closure":
                return f"closure[{rv['closure']}](" + ", ".join(ops) + ")"
            if a == "array":
                return "[" + ", ".join(ops) + "]"
            return "agg(" + ", ".join(ops) + ")"
        if k == "repeat":
            return f"[{self.expr_operand(rv['op'], depth, stack)}; {rv['n']}]"
        if k == "tls":
            return f"tls:{rv['def']}"
        return f"other:{rv.get('dbg','?')[:60]}"

    # ---------------------------------------------------------------- variable-level rendering
    def vexpr_operand(self, op, depth=10):
        """like expr_operand, but a named user variable (or parameter) is an opaque leaf `$name`: used for
        rules about accumulators that are mutated through `&mut` calls (`mask |= ..`), whose flow-insensitive
        value expression is only their initialiser. Constants are rendered by path, without their value."""
        if op["k"] == "const":
            return re.sub(r"=\-?\d+$", "", self.expr_operand(op))
        return self.vexpr_place(op["pl"], depth)

    def vexpr_place(self, pl, depth=10):
        l = pl["l"]
        if self.upvars and pl["p"] and l == 1:
            return self.expr_place(pl, 2)      # captured variable: `up:<name>`
        name = self.varnames.get(l)
        if name or 1 <= l <= self.argc:
            return self._apply_proj("$" + (name or str(l)), pl["p"])
        if depth <= 0:
            return self._apply_proj(f"_{l}", pl["p"])
        ds = self.defs().get(l, [])
        if len(ds) != 1:
            return self._apply_proj(f"_{l}", pl["p"])
        d = ds[0]
        if d[0] == "call":
            t = d[2]
            e = strip_generics(t["callee"]) + "(" + ", ".join(self.vexpr_operand(a, depth - 1) for a in t["args"]) + ")"
        else:
            e = self.vexpr_rvalue(d[3]["rv"], depth - 1)
        return self._apply_proj(e, pl["p"])

    def vexpr_rvalue(self, rv, depth=10):
        k = rv["k"]
        if k == "use":
            return self.vexpr_operand(rv["op"], depth)
        if k in ("ref", "rawptr"):
            return self.vexpr_place(rv["pl"], depth)
        if k == "cast":
            return self.vexpr_operand(rv["op"], depth)
        if k == "binop":
            return f"({self.vexpr_operand(rv['a'], depth)} {rv['op']} {self.vexpr_operand(rv['b'], depth)})"
        if k == "unop":
            return f"{rv['op']}({self.vexpr_operand(rv['a'], depth)})"
        if k == "discr":
            return f"discr({self.vexpr_place(rv['pl'], depth)})"
        if k == "agg":
            ops = [self.vexpr_operand(o, depth) for o in rv["ops"]]
            a = rv["agg"]
            if a == "adt":
                fs = rv.get("fields", [])
                return f"{rv['adt']}::{rv['variant']}{{" + ", ".join(f"{n}: {o}" for n, o in zip(fs, ops)) + "}"
            if a == "tuple":
                return "(" + ", ".join(ops) + ")"
            if a == "closure":
                return f"closure[{rv['closure']}](" + ", ".join(ops) + ")"
            if a == "array":
                return "[" + ", ".join(ops) + "]"
            return "agg(" + ", ".join(ops) + ")"
        return self.expr_rvalue(rv, depth)

    def vexpr_call(self, t, depth=10):
        return strip_generics(t["callee"]) + "(" + ", ".join(self.vexpr_operand(a, depth) for a in t["args"]) + ")"

    # origins: the leaves of the provenance tree of an operand, as a set of strings
    def origins_local(self, l, seen=None):
        """set of leaf origins: 'arg:<name>[.proj]', 'const:<repr>', 'call:<callee>@<bb>'"""
        if seen is None:
            seen = set()
        out = set()
        if l in seen:
            return out
        seen.add(l)
        if 1 <= l <= self.argc:
            return {self.local_name(l)}
        ds = self.defs().get(l, [])
        if not ds:
            return {self.local_name(l)}
        for d in ds:
            if d[0] == "assign":
                out |= self.origins_rvalue(d[3]["rv"], seen)
            else:
                t = d[2]
                if t["args"] and is_transparent(t["callee"]):
                    out |= self.origins_operand(t["args"][0], seen)
                else:
                    out.add(f"call:{strip_generics(t['callee'])}@{d[1]}")
        return out

    def origins_operand(self, op, seen=None):
        if op["k"] in ("copy", "move"):
            base = self.origins_local(op["pl"]["l"], seen)
            suffix = self._apply_proj("", op["pl"]["p"])
            return {b + suffix if (b.startswith("arg:") or b.startswith("var:")) else b for b in base}
        if op["k"] == "const":
            return {"const:" + const_repr(op)}
        return {"?"}

    def origins_rvalue(self, rv, seen=None):
        k = rv["k"]
        if k == "use":
            return self.origins_operand(rv["op"], seen)
        if k in ("ref", "rawptr", "discr"):
            return self.origins_operand({"k": "copy", "pl": rv["pl"]}, seen)
        if k == "cast":
            return self.origins_operand(rv["op"], seen)
        if k == "binop":
            return self.origins_operand(rv["a"], seen) | self.origins_operand(rv["b"], seen)
        if k == "unop":
            return self.origins_operand(rv["a"], seen)
        if k == "agg":
            out = set()
            for o in rv["ops"]:
                out |= self.origins_operand(o, seen)
            if rv["agg"] == "closure":
                out.add("closure:" + rv["closure"])
            return out or {"agg:empty"}
        if k == "repeat":
            return self.origins_operand(rv["op"], seen)
        return {"other"}

    def deep_origins(self, op):
        """origins of an operand, descending through call arguments (collect / map / iter chains);
        returns leaves 'arg:x.field…' and 'call:<callee>' markers"""
        f = self
        out = set()
        seen = set()

        def go_local(l):
            if l in seen:
                return
            seen.add(l)
            if 1 <= l <= f.argc:
                out.add(f.local_name(l))
                return
            for d in f.defs().get(l, []):
                if d[0] == "assign":
                    go_rv(d[3]["rv"])
                else:
                    t = d[2]
                    out.add("call:" + strip_generics(t["callee"]))
                    for a in t["args"]:
                        go_op(a)

        def go_op(o):
            if o["k"] in ("copy", "move"):
                base_before = set(out)
                go_local(o["pl"]["l"])
                suffix = f._apply_proj("", o["pl"]["p"])
                if suffix:
                    for x in list(out - base_before):
                        out.add(x + suffix)
                    if 1 <= o["pl"]["l"] <= f.argc:
                        out.add(f.local_name(o["pl"]["l"]) + suffix)
            elif o["k"] == "const":
                pass

        def go_rv(rv):
            k = rv["k"]
            if k in ("use", "cast", "repeat"):
                go_op(rv.get("op"))
            elif k == "unop":
                go_op(rv.get("a"))
            elif k in ("ref", "rawptr", "discr"):
                go_op({"k": "copy", "pl": rv["pl"]})
            elif k == "binop":
                go_op(rv["a"])
                go_op(rv["b"])
            elif k == "agg":
                for o in rv["ops"]:
                    go_op(o)
        go_op(op)
        return out



    def loc(self, bb, idx=None):
        blk = self.blocks[bb]
        if idx is None:
            return loc_of(blk["t"].get("sp"))
        return loc_of(blk["s"][idx].get("sp"))


class _PromotedFn(Fn):
    pass


_RULE_IDENTS = None


def _rule_file_identifiers():
    """identifiers that occur in the rule files (function names the rules anchor on)"""
    global _RULE_IDENTS
    if _RULE_IDENTS is None:
        import glob
        import os
        base = os.path.join(os.path.dirname(os.path.dirname(os.path.abspath(__file__))), "rules")
        txt = ""
        for fpath in glob.glob(os.path.join(base, "*.py")) + glob.glob(os.path.join(base, "*.json")):
            with open(fpath, encoding="utf-8") as fh:
                txt += fh.read()
        _RULE_IDENTS = set(re.findall(r"[A-Za-z_][A-Za-z0-9_]{3,}", txt))
    return _RULE_IDENTS


def const_repr(op):
    if "fn" in op:
        return "fn:" + strip_generics(op["fn"])
    v = op.get("val")
    if v is not None:
        if "static" in v:
            return "static:" + v["static"]
        if "fnptr" in v:
            return "fn:" + v["fnptr"]
        if "ref" in v and isinstance(v["ref"], dict):
            r = v["ref"]
            if "str" in r:
                return json.dumps(r["str"], ensure_ascii=False)
            if "int" in r:
                return f"&{r['int']}"
        if "str" in v:
            return json.dumps(v["str"], ensure_ascii=False)
        if "int" in v:
            ty = op.get("ty", "")
            if ty == "bool":
                return "true" if v["int"] else "false"
            if ty == "char":
                try:
                    return repr(chr(v["int"]))
                except Exception:
                    return str(v["int"])
            if "def" in op and "promoted" not in op:
                return f"{op['def']}={v['int']}"
            return str(v["int"])
        if "zst" in v:
            if "closure" in op:
                return "closure:" + op["closure"]
            return op.get("repr", "()")
    if "def" in op:
        if "promoted" in op:
            return f"promoted#{op['promoted']}"
        return op["def"]
    return op.get("repr", "?")


class Facts:
    def __init__(self, j):
        self.j = j
        self.label = j.get("_label", "?")
        self.fns = {}
        for name, fj in j["fns"].items():
            self.fns[name] = Fn(self, name, fj)
        self.adts = j["adts"]
        self.consts = j["consts"]
        self.statics = j["statics"]
        self.impls = j["impls"]
        self._cg = None
        self.accessed = set()
        self._inl_cache = {}
        self._inlined_children = {}

    def fn(self, name, raw=False):
        """the function a rule anchors on. By default this is the body with private helpers that no rule names merged in
        (fn_inl): moving part of an anchor into a new private function, or back, does not change what a rule sees.
        `raw=True` (and direct access to `fns`) gives the body as compiled -- the A7 audit enumerates sites per function."""
        f = self.fns.get(name)
        if f is None:
            raise AnchorMissing(f"function `{name}` not found in configuration {self.label}")
        self.accessed.add(name)
        if raw or "{closure" in name or os.environ.get("VERIF_NO_INLINE"):
            return f
        return self.fn_inl(name)

    def has_fn(self, name):
        return name in self.fns

    def fns_matching(self, pattern):
        rx = re.compile(pattern)
        return [f for n, f in self.fns.items() if rx.search(n)]

    def adt(self, name):
        a = self.adts.get(name)
        if a is None:
            raise AnchorMissing(f"type `{name}` not found in configuration {self.label}")
        return a

    def fields(self, adt_name, variant=0):
        return self.adt(adt_name)["variants"][variant]["fields"]

    def const_int(self, name):
        c = self.consts.get(name)
        if c is None or "val" not in c or "int" not in c["val"]:
            raise AnchorMissing(f"const `{name}` not found / not an integer in {self.label}")
        return c["val"]["int"]

    def closures_of(self, name):
        names = [n for n in self.fns if n.startswith(name + "::{closure")]
        # closures of the private helpers that fn_inl() merged into `name` belong to the merged body
        for child in self._inlined_children.get(name, ()):
            names += [n for n in self.fns if n.startswith(child + "::{closure")]
        self.accessed.update(names)
        if os.environ.get("VERIF_NO_INLINE"):
            return [self.fns[n] for n in names]
        # a closure, too, is read with the unnamed private helpers of its enclosing function merged in
        return [self.fn_inl(n, family=name.split("::{closure")[0]) for n in names]

    # ---------------------------------------------------------------- helper inlining (opt-in view)
    def _inlinable(self, callee, into):
        """a private, non-recursive local function all of whose call sites lie in `into` (or in helpers already merged
        into it): what `extract function` produces"""
        g = self.fns.get(callee)
        if g is None or callee == into or "{closure" in callee or g.j.get("kind") not in ("Fn", "AssocFn"):
            return False
        if g.j.get("vis") == "Public":
            return False
        # a function the rule files name is an anchor of its own: rules look for calls TO it; only helpers no rule
        # knows about (what an `extract function` refactoring introduces) are merged into their caller
        if callee.split("::")[-1] in _rule_file_identifiers():
            return False
        if any(strip_generics(t["callee"]) == callee for b, t in g.calls()):
            return False
        family = {into} | set(self._inlined_children.get(into, ()))
        for f, b, t in self.callers_of("^" + re.escape(callee) + "$"):
            base = f.name.split("::{closure")[0]
            if base not in family and base != callee:
                return False
        # passed around as a function value somewhere: not a plain helper
        return True

    def fn_inl(self, name, depth=3, family=None):
        """`name` with its private single-caller helpers merged in (MIR-level inlining: parameters become locals assigned
        from the call's operands, `return` becomes an assignment to the call's destination and a jump to its
        continuation). A rule that reads this view is indifferent to `extract function` / `inline function` refactorings of
        its anchor. The frozen A7 table keeps using the plain bodies (its keys name the function a site lives in)."""
        if name in self._inl_cache:
            return self._inl_cache[name]
        f = self.fn(name, raw=True)
        import copy
        into = family or name
        if not any(b["t"]["k"] == "call" and self._inlinable(strip_generics(b["t"]["callee"]), into) for b in f.blocks if not b.get("cleanup")):
            self._inlined_children.setdefault(name, [])
            self._inl_cache[name] = f
            return f
        mir = copy.deepcopy(f.mir)
        self._inlined_children.setdefault(name, [])

        def rplace(pl, dl):
            return {"l": pl["l"] + dl,
                    "p": [({**q, "index": q["index"] + dl} if isinstance(q, dict) and isinstance(q.get("index"), int) else q) for q in pl["p"]]}

        def remap(o, dl):
            if isinstance(o, dict):
                if isinstance(o.get("l"), int) and isinstance(o.get("p"), list) and set(o) <= {"l", "p"}:
                    return rplace(o, dl)
                return {k: remap(v, dl) for k, v in o.items()}
            if isinstance(o, list):
                return [remap(x, dl) for x in o]
            return o

        def rterm(t, dl, db):
            t = remap(t, dl)
            for k in ("t", "otherwise", "unwind"):
                if isinstance(t.get(k), int) and not isinstance(t.get(k), bool):
                    t[k] = t[k] + db
            if "targets" in t:
                t["targets"] = [[v, b + db] for v, b in t["targets"]]
            return t
        for _round in range(depth):
            changed = False
            for bi in range(len(mir["blocks"])):
                blk = mir["blocks"][bi]
                t = blk["t"]
                if t["k"] != "call" or blk.get("cleanup"):
                    continue
                callee = strip_generics(t["callee"])
                if not self._inlinable(callee, into):
                    continue
                C = self.fns[callee].mir
                if len(t["args"]) != C["argc"]:
                    continue
                dl, db = len(mir["locals"]), len(mir["blocks"])
                mir["locals"] = mir["locals"] + list(C["locals"])
                for v in C.get("vars", []):
                    nv = remap({k: x for k, x in v.items() if k != "arg"}, dl)
                    mir.setdefault("vars", []).append(nv)
                for i, a in enumerate(t["args"]):
                    blk["s"].append({"k": "assign", "pl": {"l": dl + 1 + i, "p": []}, "rv": {"k": "use", "op": a}, "sp": t.get("sp")})
                for cb in C["blocks"]:
                    nb = {"s": remap(cb["s"], dl), "t": rterm(cb["t"], dl, db), "cleanup": cb.get("cleanup")}
                    if nb["t"]["k"] == "return":
                        nb["s"].append({"k": "assign", "pl": t["dest"], "rv": {"k": "use", "op": {"k": "move", "pl": {"l": dl, "p": []}}},
                                        "sp": t.get("sp")})
                        nb["t"] = {"k": "goto", "t": t["t"]} if t.get("t") is not None else {"k": "unreachable"}
                    mir["blocks"].append(nb)
                blk["t"] = {"k": "goto", "t": db}
                if callee not in self._inlined_children[name]:
                    self._inlined_children[name].append(callee)
                self.accessed.add(callee)
                changed = True
            if not changed:
                break
        g = Fn(self, name, f.j, body=mir)
        self._inl_cache[name] = g
        return g

    # ---------------------------------------------------------------- call graph (A1)
    def callgraph(self):
        """caller -> set of local callee names (calls, closures created, fn items referenced)"""
        if self._cg is not None:
            return self._cg
        cg = defaultdict(set)
        for name, f in self.fns.items():
            for b in range(len(f.blocks)):
                blk = f.blocks[b]
                if blk.get("cleanup"):
                    continue
                t = blk["t"]
                if t["k"] == "call":
                    c = t["callee"]
                    if c in self.fns:
                        cg[name].add(c)
                    elif not t.get("local", False):
                        # foreign generic callee instantiated with a local type: it may call any
                        # trait method implemented for that type (Serialize, Clone, Ord, Default, ...)
                        mentioned = set()
                        for g in t.get("gen", []):
                            for m in re.finditer(r"([a-z_][\w]*(?:::[\w]+)+)", g):
                                if m.group(1) in self.adts:
                                    mentioned.add(m.group(1))
                        ti = self._trait_impls_of()
                        for adt in mentioned:
                            for im in ti.get(adt, ()):
                                # only impls whose header mentions no local type outside this call's
                                # type arguments (e.g. TryFrom<NetworkFilter> for CbRule needs both)
                                if self._ti_hdr[im] <= mentioned:
                                    cg[name].add(im)
                    for a in t["args"]:
                        self._ops_refs(a, cg[name])
                    # generic args naming closures / fn items
                for s in blk["s"]:
                    if s["k"] == "assign":
                        self._rv_refs(s["rv"], cg[name])
        # statics: a function that mentions a static whose initializer calls closures
        self._cg = cg
        return cg

    def _trait_impls_of(self):
        """local ADT path -> names of local trait-impl methods whose Self type is that ADT"""
        if getattr(self, "_ti", None) is None:
            ti = defaultdict(set)
            self._ti_hdr = {}
            for n, f in self.fns.items():
                st = f.j.get("impl_self")
                # a foreign generic function can only call methods of traits it knows: never those of a trait
                # defined in this crate (NetworkMatchable, Optimization, ...)
                if st and f.j.get("impl_trait") and not f.j.get("impl_trait_local"):
                    # index by every local ADT mentioned in the impl header (Self type and trait
                    # arguments, e.g. `impl From<WireFmt> for (Blocker, Cache)`)
                    hdr = st + " " + n.split("::{closure")[0]
                    hs = set()
                    for m in re.finditer(r"([a-z_][\w]*(?:::[\w]+)+)", hdr):
                        if m.group(1) in self.adts:
                            ti[m.group(1)].add(n)
                            hs.add(m.group(1))
                    self._ti_hdr[n] = hs
            self._ti = ti
        return self._ti

    def _static_closures(self, static_name):
        if getattr(self, "_sc", None) is None:
            self._sc = defaultdict(set)
            for n in self.fns:
                m = re.match(r"^(.*?)::\{closure#\d+\}", n)
                if m and m.group(1) in self.statics:
                    self._sc[m.group(1)].add(n)
        return self._sc.get(static_name, ())

    def _ops_refs(self, op, out):
        if isinstance(op, dict) and op.get("k") == "const" and isinstance(op.get("val"), dict) \
                and "static" in op["val"]:
            # a function that mentions a static may run its (lazy) initialiser
            for c in self._static_closures(op["val"]["static"]):
                out.add(c)
        if isinstance(op, dict) and op.get("k") == "const":
            if "fn" in op and op["fn"] in self.fns:
                out.add(op["fn"])
            if "closure" in op and op["closure"] in self.fns:
                out.add(op["closure"])

    def _rv_refs(self, rv, out):
        k = rv["k"]
        if k == "agg":
            if rv["agg"] == "closure" and rv["closure"] in self.fns:
                out.add(rv["closure"])
            for o in rv["ops"]:
                self._ops_refs(o, out)
        elif k in ("use", "cast", "repeat"):
            self._ops_refs(rv.get("op"), out)
        elif k == "unop":
            self._ops_refs(rv.get("a"), out)
        elif k == "binop":
            self._ops_refs(rv["a"], out)
            self._ops_refs(rv["b"], out)

    def cone(self, roots, stop=()):
        """set of local functions reachable from roots through the call graph"""
        cg = self.callgraph()
        seen = set()
        dq = deque(r for r in roots)
        stop = set(stop)
        while dq:
            n = dq.popleft()
            if n in seen or n in stop:
                continue
            if n not in self.fns:
                continue
            seen.add(n)
            for c in cg.get(n, ()):
                dq.append(c)
        return seen

    def callers_of(self, pattern):
        """[(caller Fn, bb, term)] for every call whose callee matches"""
        out = []
        for f in self.fns.values():
            for b, t in f.calls(pattern):
                out.append((f, b, t))
        return out

    def path_to(self, roots, target):
        """one call-graph path from any root to target (for reports)"""
        cg = self.callgraph()
        prev = {}
        dq = deque()
        for r in roots:
            prev[r] = None
            dq.append(r)
        while dq:
            n = dq.popleft()
            if n == target:
                p = []
                while n is not None:
                    p.append(n)
                    n = prev[n]
                return list(reversed(p))
            for c in cg.get(n, ()):
                if c not in prev and c in self.fns:
                    prev[c] = n
                    dq.append(c)
        return None


def load_facts(path, label="?"):
    with open(path) as fh:
        j = json.load(fh)
    j["_label"] = label
    return Facts(j)
