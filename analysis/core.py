"""Run bookkeeping: obligations, floors, known findings, evidence, violation reports."""
import hashlib
import re
import json
import os
import sys
import time
import traceback

from . import extract
from .facts import Facts, AnchorMissing, load_facts

VERIF = extract.VERIF
EVID = os.path.join(VERIF, "evidence")
KNOWN = os.path.join(VERIF, "known_findings.txt")


def load_known():
    """known: property=<id> key=<key> :: <what fails>"""
    out = {}
    if not os.path.exists(KNOWN):
        return out
    for line in open(KNOWN, encoding="utf-8"):
        line = line.rstrip("\n")
        if not line.startswith("known:"):
            continue
        try:
            head, what = line[len("known:"):].split(" :: ", 1)
            parts = dict(p.split("=", 1) for p in head.split() if "=" in p)
            out[(parts["property"], re.sub(r"\|cfg=[\w/]+$", "", parts["key"]))] = what.strip()
        except Exception:
            raise SystemExit(f"known_findings.txt: malformed line: {line}")
    return out


class Borrow:
    """Several properties rest on the same structural fact (e.g. C04's precedence and C07's tag gate both
    need `importants` probed with the enabled tags). The rule is written once, in the module of the property
    it is most specific to, and re-evaluated by each property that depends on it; the obligations are
    recorded under the borrowing property so that its own check reports the breakage. `only` restricts the
    borrowed obligations to the instances relevant to the borrower (floors are then dropped: they count
    the full rule). An instance that is a listed known finding of the origin property is reported there,
    not here."""

    def __init__(self, run, origin, only=None, why=""):
        self._run = run
        self._origin = origin
        self._only = re.compile(only) if only else None
        self._why = why
        self._known = load_known()

    def __getattr__(self, name):
        return getattr(self._run, name)

    def _rule(self, rule):
        return f"{self._run.pid}.via.{rule}"

    def ob(self, rule, inst, ok, desc, site="", detail="", status=None, config=""):
        if self._only and not self._only.search(f"{rule}|{inst}"):
            return ok
        if not ok and (self._origin, f"{rule}|{inst}") in self._known:
            return ok
        if self._why and not ok:
            desc = f"{desc}  [needed by {self._run.pid}: {self._why}]"
        return self._run.ob(self._rule(rule), inst, ok, desc, site=site, detail=detail, status=status,
                            config=config)

    def floor(self, rule, what, count, minimum):
        if self._only:
            return
        Run.floor(self, rule, what, count, minimum)

    def guard(self, rule, inst, fn):
        return Run.guard(self, rule, inst, fn)


class Run:
    def __init__(self, pid, tier, seed=0):
        self.pid = pid
        self.tier = tier
        self.seed = seed
        self.t0 = time.time()
        self.obls = []
        self._facts = {}
        self.explanation = ""
        self.not_decided = ""
        self.extra = {}
        self.assumptions = []
        self.configs_used = set()
        self.fn_analysed = set()
        self._keys = set()

    # ------------------------------------------------------------ facts
    def facts(self, label):
        if label not in self._facts:
            p = extract.extract(label)
            self._facts[label] = load_facts(p, label)
        self.configs_used.add(label)
        return self._facts[label]

    def cfgs(self, *default):
        """configurations a rule module evaluates: its defaults in the quick tier, all five in thorough"""
        if self.tier != "thorough":
            return default
        return tuple(default) + tuple(c for c in ("A", "B", "C", "D", "E") if c not in default)

    def touched(self, *fns):
        for f in fns:
            self.fn_analysed.add(f if isinstance(f, str) else f.name)

    # ------------------------------------------------------------ obligations
    def ob(self, rule, inst, ok, desc, site="", detail="", status=None, config=""):
        """Record one obligation. key = rule|inst (never contains a line number)."""
        key = f"{rule}|{inst}"
        if config:
            key = f"{key}|cfg={config}"
        if key in self._keys:
            # same instance reached twice (e.g. via two configurations without config tag)
            n = 2
            while f"{key}#{n}" in self._keys:
                n += 1
            key = f"{key}#{n}"
        self._keys.add(key)
        if status is None:
            status = "ok" if ok else "VIOLATED"
        self.obls.append({
            "key": key, "rule": rule, "ok": bool(ok), "status": status,
            "desc": desc, "site": site, "detail": detail, "config": config,
        })
        return ok

    def floor(self, rule, what, count, minimum):
        """vacuous-pass guard: the rule must have matched at least `minimum` sites
        (the number confirmed by hand on the reference tree)."""
        self.ob(rule + ".floor", what, count >= minimum,
                f"rule `{rule}` matched {count} {what}; floor confirmed by reading = {minimum}",
                detail="a rule that matches fewer sites than were confirmed by hand would pass "
                       "vacuously; refusing", status=None if count >= minimum else "UNDISCHARGED")

    def guard(self, rule, inst, fn):
        """run fn(); an AnchorMissing becomes a failed obligation (fail closed)"""
        try:
            return fn()
        except AnchorMissing as e:
            self.ob(rule, inst + ".anchor", False, f"anchor missing: {e}", status="UNDISCHARGED",
                    detail="the code this rule is anchored in no longer resolves; the checker "
                           "cannot justify the clause (fail closed)")
        except Exception as e:  # noqa: BLE001 - any failure of a rule is reported as undischarged, never as a crash
            tb = traceback.format_exc(limit=4)
            self.ob(rule, inst + ".shape", False,
                    f"checker precondition failed while evaluating rule ({type(e).__name__}: {e})",
                    status="UNDISCHARGED", detail=tb)
        return None

    def borrow(self, origin, only=None, why=""):
        """a view of this run for evaluating a rule function that belongs to property `origin`:
        its obligations are recorded here under `<pid>.via.<origin rule>`"""
        return Borrow(self, origin, only, why)

    # ------------------------------------------------------------ finish
    def finish(self, only_key=None):
        known = load_known()
        os.makedirs(os.path.join(EVID, "violations"), exist_ok=True)
        violations = []
        known_hits = []
        for o in self.obls:
            if o["ok"]:
                continue
            if only_key and o["key"] != only_key:
                continue
            k = (self.pid, re.sub(r"\|cfg=[\w/]+(#\d+)?$", "", o["key"]))
            if k in known:
                known_hits.append((o, known[k]))
            else:
                violations.append(o)
        if only_key:
            hit = [o for o in self.obls if o["key"] == only_key]
            if not hit:
                print(f"replay: instance `{only_key}` no longer exists on the current tree")
            for o in hit:
                print(f"replay: instance `{o['key']}` -> {o['status']}: {o['desc'][:300]}" + (f" (at {o['site']})" if o["site"] else ""))
        for o, what in known_hits:
            print(f"KNOWN-FINDING: property={self.pid} {what} [{o['key']}]")
        for o in violations:
            h = hashlib.sha256(o["key"].encode()).hexdigest()[:12]
            vdir = os.path.join(EVID, "violations") if not os.environ.get("VERIF_NO_EVIDENCE") else "/tmp/verif-matrix-violations"
            os.makedirs(vdir, exist_ok=True)
            path = os.path.join(vdir, f"{self.pid}-{h}.json")
            with open(path, "w") as fh:
                json.dump({"property": self.pid, **o}, fh, indent=1)
            print(f"--- {o['status']} {self.pid} rule {o['rule']}")
            print(f"    instance: {o['key']}")
            print(f"    {o['desc']}")
            if o["site"]:
                print(f"    at {o['site']}")
            if o["detail"]:
                for l in str(o["detail"]).splitlines()[:12]:
                    print(f"    | {l}")
            print(f"VIOLATION property={self.pid} replay={path}")
        for fx in self._facts.values():
            self.fn_analysed |= fx.accessed
        if os.environ.get("VERIF_DUMP_FNS"):
            # tooling aid (tools/rule_coverage.py): which functions did the rules of this property read
            with open(os.path.join(os.environ["VERIF_DUMP_FNS"], f"{self.pid}.fns"), "w") as fh:
                fh.write("\n".join(sorted(self.fn_analysed)))
        n = len(self.obls)
        ok = sum(1 for o in self.obls if o["ok"])
        rules = sorted(set(o["rule"] for o in self.obls))
        nontrivial = len(set(o["rule"] for o in self.obls if not o["rule"].endswith(".floor")))
        # samples: rotate with seed
        samples = []
        step = max(1, n // 8)
        for i in range(0, n, step):
            o = self.obls[(i + self.seed) % n] if n else None
            if o:
                samples.append({"key": o["key"], "desc": o["desc"][:300], "site": o["site"],
                                "status": o["status"]})
        ev = {
            "property_id": self.pid,
            "tier": self.tier,
            "seed": self.seed,
            "level": "other",
            "coverage": {
                "explanation": self.explanation,
                "not_decided": self.not_decided,
                "obligations": n,
                "discharged": ok,
                "evaluations": n,
                "distinct_nontrivial": nontrivial,
                "rule": "one obligation per (rule, instance) found in the resolved program of the "
                        "current /repo tree; distinct_nontrivial counts distinct rules that "
                        "constrained at least one concrete site (floor obligations excluded)",
                "rules": rules,
                "samples": samples[:12],
                "configs": sorted(self.configs_used),
                "config_desc": {c: extract.CONFIG_DESC[c] for c in sorted(self.configs_used)},
                "functions_analysed": len(self.fn_analysed),
                "known_findings": [o["key"] for o, _ in known_hits],
                "checker_cmd": f"./check {self.pid} {self.tier}",
                "trusted_base": [
                    "rustc nightly front end: name resolution, type checking, MIR construction, "
                    "const evaluation, trait resolution",
                    "adbfacts driver's JSON export of MIR",
                    "name-level summaries of std / dependency functions listed in the rule files",
                ],
                **self.extra,
            },
            "assumptions": self.assumptions,
            "wall_s": round(time.time() - self.t0, 2),
            "violations": len(violations),
        }
        if not only_key and not os.environ.get("VERIF_NO_EVIDENCE"):
            with open(os.path.join(EVID, f"{self.pid}.json"), "w") as fh:
                json.dump(ev, fh, indent=1, ensure_ascii=False)
        print(f"[{self.pid}] {ok}/{n} obligations discharged, {len(violations)} violation(s), "
              f"{len(known_hits)} known finding(s), configs {sorted(self.configs_used)}, "
              f"{ev['wall_s']}s")
        return 1 if violations else 0
